package methods

import (
	"fmt"

	"github.com/hugelgupf/p9/p9"
	"verif/harness/refcodec"
)

// Bit assignments of the 9P2000.L getattr and setattr masks (Linux
// include/net/9p/9p.h: P9_GETATTR_* / P9_SETATTR_*), restated here so that
// the expectation does not depend on p9's own mask codec.
const (
	GAMode = 1 << iota
	GANLink
	GAUID
	GAGID
	GARDev
	GAATime
	GAMTime
	GACTime
	GAINo
	GASize
	GABlocks
	GABTime
	GAGen
	GADataVersion
	GAAll = 0x3fff
)

const (
	SAMode = 1 << iota
	SAUID
	SAGID
	SASize
	SAATime
	SAMTime
	SACTime
	SAATimeSet
	SAMTimeSet
	SAAll = 0x1ff
)

// AttrMask converts mask bits to the p9 struct.
func AttrMask(b uint64) p9.AttrMask {
	return p9.AttrMask{
		Mode: b&GAMode != 0, NLink: b&GANLink != 0, UID: b&GAUID != 0, GID: b&GAGID != 0,
		RDev: b&GARDev != 0, ATime: b&GAATime != 0, MTime: b&GAMTime != 0, CTime: b&GACTime != 0,
		INo: b&GAINo != 0, Size: b&GASize != 0, Blocks: b&GABlocks != 0, BTime: b&GABTime != 0,
		Gen: b&GAGen != 0, DataVersion: b&GADataVersion != 0,
	}
}

// AttrMaskBits converts the p9 struct to mask bits.
func AttrMaskBits(m p9.AttrMask) uint64 {
	var b uint64
	set := func(on bool, bit uint64) {
		if on {
			b |= bit
		}
	}
	set(m.Mode, GAMode)
	set(m.NLink, GANLink)
	set(m.UID, GAUID)
	set(m.GID, GAGID)
	set(m.RDev, GARDev)
	set(m.ATime, GAATime)
	set(m.MTime, GAMTime)
	set(m.CTime, GACTime)
	set(m.INo, GAINo)
	set(m.Size, GASize)
	set(m.Blocks, GABlocks)
	set(m.BTime, GABTime)
	set(m.Gen, GAGen)
	set(m.DataVersion, GADataVersion)
	return b
}

// SetAttrMask converts mask bits to the p9 struct.
func SetAttrMask(b uint64) p9.SetAttrMask {
	return p9.SetAttrMask{
		Permissions: b&SAMode != 0, UID: b&SAUID != 0, GID: b&SAGID != 0, Size: b&SASize != 0,
		ATime: b&SAATime != 0, MTime: b&SAMTime != 0, CTime: b&SACTime != 0,
		ATimeNotSystemTime: b&SAATimeSet != 0, MTimeNotSystemTime: b&SAMTimeSet != 0,
	}
}

// SetAttrMaskBits converts the p9 struct to mask bits.
func SetAttrMaskBits(m p9.SetAttrMask) uint64 {
	var b uint64
	set := func(on bool, bit uint64) {
		if on {
			b |= bit
		}
	}
	set(m.Permissions, SAMode)
	set(m.UID, SAUID)
	set(m.GID, SAGID)
	set(m.Size, SASize)
	set(m.ATime, SAATime)
	set(m.MTime, SAMTime)
	set(m.CTime, SACTime)
	set(m.ATimeNotSystemTime, SAATimeSet)
	set(m.MTimeNotSystemTime, SAMTimeSet)
	return b
}

// QID conversions.
func ToQID(q refcodec.QID) p9.QID {
	return p9.QID{Type: p9.QIDType(q.Type), Version: q.Version, Path: q.Path}
}
func FromQID(q p9.QID) refcodec.QID {
	return refcodec.QID{Type: uint8(q.Type), Version: q.Version, Path: q.Path}
}
func ToQIDs(qs []refcodec.QID) []p9.QID {
	out := make([]p9.QID, len(qs))
	for i, q := range qs {
		out[i] = ToQID(q)
	}
	return out
}
func FromQIDs(qs []p9.QID) []refcodec.QID {
	out := make([]refcodec.QID, len(qs))
	for i, q := range qs {
		out[i] = FromQID(q)
	}
	return out
}

// Dirent conversions.
func ToDirents(ds []refcodec.Dirent) p9.Dirents {
	out := make(p9.Dirents, len(ds))
	for i, d := range ds {
		out[i] = p9.Dirent{QID: ToQID(d.QID), Offset: d.Offset, Type: p9.QIDType(d.Type), Name: d.Name}
	}
	return out
}
func FromDirents(ds []p9.Dirent) []refcodec.Dirent {
	out := make([]refcodec.Dirent, len(ds))
	for i, d := range ds {
		out[i] = refcodec.Dirent{QID: FromQID(d.QID), Offset: d.Offset, Type: uint8(d.Type), Name: d.Name}
	}
	return out
}

// AttrFromVec builds a p9.Attr from the 18 attribute values in wire order
// (mode uid gid nlink rdev size blksize blocks atime mtime ctime btime gen
// data_version).
func AttrFromVec(v V) p9.Attr {
	u := func(i int) uint64 { return U(v[i]) }
	return p9.Attr{
		Mode: p9.FileMode(u(0)), UID: p9.UID(u(1)), GID: p9.GID(u(2)), NLink: p9.NLink(u(3)), RDev: p9.Dev(u(4)),
		Size: u(5), BlockSize: u(6), Blocks: u(7),
		ATimeSeconds: u(8), ATimeNanoSeconds: u(9), MTimeSeconds: u(10), MTimeNanoSeconds: u(11),
		CTimeSeconds: u(12), CTimeNanoSeconds: u(13), BTimeSeconds: u(14), BTimeNanoSeconds: u(15),
		Gen: u(16), DataVersion: u(17),
	}
}

// AttrToVec is the inverse of AttrFromVec.
func AttrToVec(a p9.Attr) V {
	return V{uint64(a.Mode), uint64(a.UID), uint64(a.GID), uint64(a.NLink), uint64(a.RDev),
		a.Size, a.BlockSize, a.Blocks,
		a.ATimeSeconds, a.ATimeNanoSeconds, a.MTimeSeconds, a.MTimeNanoSeconds,
		a.CTimeSeconds, a.CTimeNanoSeconds, a.BTimeSeconds, a.BTimeNanoSeconds,
		a.Gen, a.DataVersion}
}

// FSStatFromVec builds a p9.FSStat from the 9 Rstatfs values.
func FSStatFromVec(v V) p9.FSStat {
	u := func(i int) uint64 { return U(v[i]) }
	return p9.FSStat{Type: uint32(u(0)), BlockSize: uint32(u(1)), Blocks: u(2), BlocksFree: u(3), BlocksAvailable: u(4),
		Files: u(5), FilesFree: u(6), FSID: u(7), NameLength: uint32(u(8))}
}

// FSStatToVec is the inverse.
func FSStatToVec(s p9.FSStat) V {
	return V{uint64(s.Type), uint64(s.BlockSize), s.Blocks, s.BlocksFree, s.BlocksAvailable, s.Files, s.FilesFree, s.FSID, uint64(s.NameLength)}
}

// SetAttrFromVec builds a p9.SetAttr from (perm uid gid size atime_s atime_ns mtime_s mtime_ns).
func SetAttrFromVec(v V) p9.SetAttr {
	u := func(i int) uint64 { return U(v[i]) }
	return p9.SetAttr{Permissions: p9.FileMode(u(0)), UID: p9.UID(u(1)), GID: p9.GID(u(2)), Size: u(3),
		ATimeSeconds: u(4), ATimeNanoSeconds: u(5), MTimeSeconds: u(6), MTimeNanoSeconds: u(7)}
}

// FlatArgs flattens the typed arguments memfs recorded for a call into the
// flat representation used by the table.
func FlatArgs(args []interface{}) V {
	var out V
	for _, a := range args {
		switch x := a.(type) {
		case p9.AttrMask:
			out = append(out, AttrMaskBits(x))
		case p9.SetAttrMask:
			out = append(out, SetAttrMaskBits(x))
		case p9.SetAttr:
			out = append(out, uint64(x.Permissions), uint64(x.UID), uint64(x.GID), x.Size,
				x.ATimeSeconds, x.ATimeNanoSeconds, x.MTimeSeconds, x.MTimeNanoSeconds)
		case p9.OpenFlags:
			out = append(out, uint64(x))
		case p9.FileMode:
			out = append(out, uint64(x))
		case p9.UID:
			out = append(out, uint64(x))
		case p9.GID:
			out = append(out, uint64(x))
		case p9.LockType:
			out = append(out, uint64(x))
		case p9.LockFlags:
			out = append(out, uint64(x))
		case p9.XattrFlags:
			out = append(out, int64(x))
		case int:
			out = append(out, int64(x))
		case int64:
			out = append(out, x)
		case uint32:
			out = append(out, uint64(x))
		case uint64:
			out = append(out, x)
		case string:
			out = append(out, x)
		case []byte:
			out = append(out, x)
		default:
			panic(fmt.Sprintf("methods: FlatArgs: unexpected %T", a))
		}
	}
	return out
}
