// Package methods is the "method table" shared by the checks C03 (client/
// server transparency) and C01 (wire format): one entry per File method the
// p9 client implements, stating for an argument vector
//
//	(1) how to invoke the method on a client File,
//	(2) which T message(s) with which field values must appear on the wire at
//	    version N (as refcodec.Msg, i.e. in terms of the independent layout),
//	(3) which backend method with which arguments memfs must record, and on
//	    which handle,
//	(4) how to make memfs return a chosen result vector,
//	(5) which R message the server must emit for those results,
//	(6) what the client method must return.
//
// The table is written from the File interface documentation, the 9P2000.L
// message list and the property texts; it does not call into p9's codec.
//
// Argument and result vectors are flat: every element is one of uint64,
// int64, string, []string, []byte, []refcodec.QID, []refcodec.Dirent.
package methods

import (
	"bytes"
	"fmt"
	"reflect"
	"strings"

	"verif/harness/refcodec"
)

// V is a flat value vector.
type V = []interface{}

// Kind is the semantic kind of a field; checks choose alphabets by kind.
type Kind int

// Field kinds.
const (
	KU8 Kind = iota
	KU16
	KU32
	KU64
	KOff      // int64 file offset
	KPid      // int carried as a 32-bit signed number
	KPerm     // permission field: keeps its low 12 bits
	KMode     // full mode word (mknod, attributes)
	KOFlags   // open flags
	KUID      // uid with NoUID sentinel
	KGID      // gid with NoGID sentinel
	KNewName  // valid single path component naming a new entry
	KOldName  // valid single path component naming an existing entry
	KStr      // arbitrary bytes (symlink target, lock client id, readlink result)
	KXName    // extended attribute name: arbitrary non-empty bytes
	KNames    // []string walk components (existing below the fixture)
	KAttrMask // 14-bit getattr mask as uint64
	KSetMask  // 9-bit setattr mask as uint64
	KLen      // read buffer length
	KData     // []byte payload (write data, xattr value)
	KRef      // index of another client handle (see Env.Refs)
	KQIDs     // []refcodec.QID
	KDirents  // []refcodec.Dirent
	KStrs     // []string (xattr name list)
	KIOBehave // backend behaviour selector of the chunked I/O methods
	KNsec     // nanosecond / second 64-bit time fields
)

// Field is one element of an argument or result vector.
type Field struct {
	Name string
	Kind Kind
	Def  interface{}
	// Alts, if set, is the field's alphabet whatever the kind (method
	// specific choices such as which other handle is passed).
	Alts []interface{}
}

// Alphabet is the boundary alphabet of one field: Vals[:Red] is the reduced
// alphabet used for the second field of a pair in the quick tier.
type Alphabet struct {
	Vals []interface{}
	Red  int
}

// Dev is one deviation from the default vector: field F takes value
// alphabet[F].Vals[A].
type Dev struct {
	F int `json:"f"`
	A int `json:"a"`
}

// Eq compares two flat values.
func Eq(a, b interface{}) bool {
	switch x := a.(type) {
	case []byte:
		y, ok := b.([]byte)
		return ok && bytes.Equal(x, y)
	case []string:
		y, ok := b.([]string)
		if !ok || len(x) != len(y) {
			return false
		}
		for i := range x {
			if x[i] != y[i] {
				return false
			}
		}
		return true
	case []refcodec.QID:
		y, ok := b.([]refcodec.QID)
		if !ok || len(x) != len(y) {
			return false
		}
		for i := range x {
			if x[i] != y[i] {
				return false
			}
		}
		return true
	case []refcodec.Dirent:
		y, ok := b.([]refcodec.Dirent)
		if !ok || len(x) != len(y) {
			return false
		}
		for i := range x {
			if x[i] != y[i] {
				return false
			}
		}
		return true
	}
	return reflect.DeepEqual(a, b)
}

// Clean removes values equal to the default and duplicates from an alphabet,
// keeping the reduced prefix consistent.
func Clean(def interface{}, a Alphabet) Alphabet {
	var out Alphabet
	seen := map[interface{}]bool{}
	comparable := func(v interface{}) bool {
		switch v.(type) {
		case uint64, int64, string:
			return true
		}
		return false
	}
	if comparable(def) {
		seen[def] = true
	}
	for i, v := range a.Vals {
		dup := false
		if comparable(v) {
			dup = seen[v]
			seen[v] = true
		} else {
			dup = Eq(v, def)
			for _, w := range out.Vals {
				if !comparable(w) && Eq(v, w) {
					dup = true
				}
			}
		}
		if dup {
			continue
		}
		out.Vals = append(out.Vals, v)
		if i < a.Red {
			out.Red = len(out.Vals)
		}
	}
	return out
}

// Apply builds the vector for a deviation set; off is the index of the first
// field of this vector within the global field numbering of devs.
func Apply(fields []Field, alpha []Alphabet, off int, devs []Dev) V {
	v := make(V, len(fields))
	for i, f := range fields {
		v[i] = f.Def
	}
	for _, d := range devs {
		i := d.F - off
		if i >= 0 && i < len(fields) {
			v[i] = alpha[i].Vals[d.A]
		}
	}
	return v
}

// EnumDevs enumerates deviation sets over fields with the given alphabets:
// the empty set, every single deviation over the full alphabet, and — when
// pairs is set — every pair of deviations of two different fields. With
// fullPairs the pairs range over both full alphabets; otherwise one member
// of the pair ranges over its full alphabet and the other over its reduced
// alphabet (both orders). ok(i, j) can exclude meaningless field pairs.
func EnumDevs(alpha []Alphabet, pairs, fullPairs bool, ok func(i, j int) bool, yield func(devs []Dev)) {
	yield(nil)
	for i, a := range alpha {
		for x := range a.Vals {
			yield([]Dev{{i, x}})
		}
	}
	if !pairs {
		return
	}
	for i := range alpha {
		for j := i + 1; j < len(alpha); j++ {
			if ok != nil && !ok(i, j) {
				continue
			}
			for x := range alpha[i].Vals {
				for y := range alpha[j].Vals {
					if !fullPairs && x >= alpha[i].Red && y >= alpha[j].Red {
						continue
					}
					yield([]Dev{{i, x}, {j, y}})
				}
			}
		}
	}
}

// Show renders a flat value for reports.
func Show(v interface{}) string {
	switch x := v.(type) {
	case uint64:
		if x > 9 {
			return fmt.Sprintf("%#x", x)
		}
		return fmt.Sprint(x)
	case int64:
		return fmt.Sprint(x)
	case string:
		if len(x) > 40 {
			return fmt.Sprintf("<%d-byte string %q...>", len(x), x[:16])
		}
		return fmt.Sprintf("%q", x)
	case []byte:
		if len(x) > 16 {
			return fmt.Sprintf("<%d bytes %x...>", len(x), x[:8])
		}
		return fmt.Sprintf("bytes(%x)", x)
	case []string:
		var p []string
		for i, s := range x {
			if i >= 4 {
				p = append(p, fmt.Sprintf("...%d more", len(x)-i))
				break
			}
			p = append(p, Show(s))
		}
		return "[" + strings.Join(p, " ") + "]"
	case []refcodec.QID:
		if len(x) > 4 {
			return fmt.Sprintf("<%d qids %v...>", len(x), x[:2])
		}
		return fmt.Sprintf("%v", x)
	case []refcodec.Dirent:
		if len(x) > 2 {
			return fmt.Sprintf("<%d dirents>", len(x))
		}
		var p []string
		for _, d := range x {
			p = append(p, fmt.Sprintf("{%v off=%#x type=%#x name=%s}", d.QID, d.Offset, d.Type, Show(d.Name)))
		}
		return "[" + strings.Join(p, " ") + "]"
	case nil:
		return "nil"
	}
	return fmt.Sprintf("%v", v)
}

// ShowVec renders a vector with field names.
func ShowVec(fields []Field, v V) string {
	var p []string
	for i, f := range fields {
		if i < len(v) {
			p = append(p, f.Name+"="+Show(v[i]))
		}
	}
	return "(" + strings.Join(p, ", ") + ")"
}

// U is v as uint64 (int64 values are reinterpreted).
func U(v interface{}) uint64 {
	switch x := v.(type) {
	case uint64:
		return x
	case int64:
		return uint64(x)
	case int:
		return uint64(x)
	}
	panic(fmt.Sprintf("methods: not an integer: %T", v))
}
