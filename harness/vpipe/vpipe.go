// Package vpipe is an in-memory duplex byte transport that runs on the
// controlled scheduler (every Read/Write/Close is a visible operation) and,
// when no execution is active, on real goroutines with a mutex and condition
// variable. It records what was written by whom and lets a check plan the
// segmentation of reads, cut the stream after N bytes, or fail writes.
package vpipe

import (
	"io"
	"sync"
	"syscall"

	"verif/rt/vrt"
	"verif/rt/vsched"
)

// WriteRec describes one Write call.
type WriteRec struct {
	Thread int
	Off    int
	N      int
	Stamp  vsched.Stamp
}

// Pipe is one direction.
type Pipe struct {
	Name string

	hdr     vsched.ObjHdr
	buf     []byte
	wclosed bool
	rclosed bool

	Written    []byte
	Writes     []WriteRec
	TotalRead  int
	Reads      int
	MaxReadLen int

	// Seg, if set, decides how many of the avail buffered bytes the next
	// Read (asking for want) delivers; the result is clamped to [1, min].
	Seg func(readIndex, avail, want int) int
	// EOFWithData: the Read that delivers the last buffered byte of a stream
	// whose writer has closed returns io.EOF TOGETHER with the data (which
	// io.Reader allows) instead of on the next call.
	EOFWithData bool
	// CutAfter >= 0: the reader sees EOF once that many bytes were delivered.
	CutAfter int
	// FailWritesAfter >= 0: writes fail with EPIPE once that many bytes were accepted.
	FailWritesAfter int

	mu   sync.Mutex
	cond *sync.Cond
}

// NewPipe creates a pipe.
func NewPipe(name string) *Pipe {
	p := &Pipe{Name: name, CutAfter: -1, FailWritesAfter: -1}
	p.cond = sync.NewCond(&p.mu)
	return p
}

func (p *Pipe) obj() vsched.ObjID {
	id, fresh := p.hdr.Obj()
	if fresh {
		vsched.NameObj(id, "pipe:"+p.Name)
	}
	return id
}

func (p *Pipe) readable() bool {
	return len(p.buf) > 0 || p.wclosed || p.rclosed || (p.CutAfter >= 0 && p.TotalRead >= p.CutAfter)
}

// Read implements io.Reader.
func (p *Pipe) Read(b []byte) (int, error) {
	if vsched.Active() {
		vsched.StepWhen(vsched.Op1("pipe.read:"+p.Name, p.obj(), vsched.KPipeRead), p.readable)
		return p.read(b)
	}
	if vsched.Unwinding() {
		return 0, io.ErrClosedPipe
	}
	p.mu.Lock()
	defer p.mu.Unlock()
	for !p.readable() {
		p.cond.Wait()
	}
	return p.read(b)
}

func (p *Pipe) read(b []byte) (int, error) {
	p.Reads++
	if len(b) > p.MaxReadLen {
		p.MaxReadLen = len(b)
	}
	if p.rclosed {
		return 0, io.ErrClosedPipe
	}
	if p.CutAfter >= 0 && p.TotalRead >= p.CutAfter {
		return 0, io.EOF
	}
	if len(p.buf) == 0 {
		if p.wclosed {
			return 0, io.EOF
		}
		return 0, nil
	}
	if len(b) == 0 {
		return 0, nil
	}
	n := len(p.buf)
	if len(b) < n {
		n = len(b)
	}
	if p.CutAfter >= 0 && p.TotalRead+n > p.CutAfter {
		n = p.CutAfter - p.TotalRead
	}
	if p.Seg != nil {
		k := p.Seg(p.Reads-1, n, len(b))
		if k < 1 {
			k = 1
		}
		if k < n {
			n = k
		}
	}
	copy(b, p.buf[:n])
	vrt.ArrW(b[:n], "buffer bytes", "vpipe.Read")
	p.buf = p.buf[n:]
	p.TotalRead += n
	if p.EOFWithData && p.wclosed && len(p.buf) == 0 {
		return n, io.EOF
	}
	return n, nil
}

// Write implements io.Writer.
func (p *Pipe) Write(b []byte) (int, error) {
	if vsched.Active() {
		vsched.Step(vsched.Op1("pipe.write:"+p.Name, p.obj(), vsched.KPipeWrite))
		return p.write(b)
	}
	if vsched.Unwinding() {
		return 0, io.ErrClosedPipe
	}
	p.mu.Lock()
	defer p.mu.Unlock()
	n, err := p.write(b)
	p.cond.Broadcast()
	return n, err
}

func (p *Pipe) write(b []byte) (int, error) {
	if p.wclosed {
		return 0, io.ErrClosedPipe
	}
	if p.rclosed {
		return 0, syscall.EPIPE
	}
	if p.FailWritesAfter >= 0 {
		room := p.FailWritesAfter - len(p.Written)
		if room < len(b) {
			if room < 0 {
				room = 0
			}
			p.record(b[:room])
			return room, syscall.EPIPE
		}
	}
	p.record(b)
	return len(b), nil
}

func (p *Pipe) record(b []byte) {
	vrt.ArrR(b, "buffer bytes", "vpipe.Write")
	p.Writes = append(p.Writes, WriteRec{Thread: vsched.CurThread(), Off: len(p.Written), N: len(b), Stamp: vsched.MakeStamp()})
	p.Written = append(p.Written, b...)
	p.buf = append(p.buf, b...)
}

// WriteAndCloseWrite writes b and ends the stream in one step, so that no
// Read can see b's last byte without also seeing that the writer is gone
// (free-running use only).
func (p *Pipe) WriteAndCloseWrite(b []byte) (int, error) {
	p.mu.Lock()
	defer p.mu.Unlock()
	n, err := p.write(b)
	p.wclosed = true
	p.cond.Broadcast()
	return n, err
}

// CloseWrite ends the stream: the reader sees EOF after the buffered bytes.
func (p *Pipe) CloseWrite() {
	if vsched.Active() {
		vsched.Step(vsched.Op1("pipe.closew:"+p.Name, p.obj(), vsched.KPipeClose))
		p.wclosed = true
		return
	}
	p.mu.Lock()
	p.wclosed = true
	p.cond.Broadcast()
	p.mu.Unlock()
}

// CloseRead makes further reads fail and writes return EPIPE.
func (p *Pipe) CloseRead() {
	if vsched.Active() {
		vsched.Step(vsched.Op1("pipe.closer:"+p.Name, p.obj(), vsched.KPipeClose))
		p.rclosed = true
		return
	}
	p.mu.Lock()
	p.rclosed = true
	p.cond.Broadcast()
	p.mu.Unlock()
}

// Buffered returns the number of bytes written but not yet read.
func (p *Pipe) Buffered() int { return len(p.buf) }

// Conn is one end of a duplex connection.
type Conn struct {
	R, W   *Pipe
	closed bool
}

// NewConnPair returns two connected ends.
func NewConnPair(name string) (a, b *Conn) {
	ab, ba := NewPipe(name+":a>b"), NewPipe(name+":b>a")
	return &Conn{R: ba, W: ab}, &Conn{R: ab, W: ba}
}

func (c *Conn) Read(b []byte) (int, error)  { return c.R.Read(b) }
func (c *Conn) Write(b []byte) (int, error) { return c.W.Write(b) }

// Close closes both directions of this end (idempotent).
func (c *Conn) Close() error {
	if c.closed {
		return nil
	}
	c.closed = true
	c.W.CloseWrite()
	c.R.CloseRead()
	return nil
}

// Peek returns the number of buffered bytes and whether the stream has ended,
// as a visible read operation on the pipe (so that decisions based on it are
// known to the explorer).
func (p *Pipe) Peek() (buffered int, ended bool) {
	if vsched.Active() {
		vsched.Step(vsched.Op1("pipe.peek:"+p.Name, p.obj(), vsched.KPipeRead))
		return len(p.buf), p.wclosed || p.rclosed
	}
	p.mu.Lock()
	defer p.mu.Unlock()
	return len(p.buf), p.wclosed || p.rclosed
}
