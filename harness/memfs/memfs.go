// Package memfs is the instrumented in-memory backend used by the checks.
//
// Object identity (inodes) is separate from handles (one per p9.File handed
// to the server). A handle knows its location only as (parent handle, name)
// and learns about renames only through Renamed, exactly like localfs, so a
// missed notification is observable: path-dependent methods resolve the
// notified path and report when it no longer denotes the handle's object.
//
// memfs adds no synchronisation of its own under the controlled scheduler
// (only one thread runs at a time), so a missing lock in p9 cannot be masked
// by an accidental happens-before edge. State accesses are declared to the
// scheduler as visible read/write operations on the touched inode.
package memfs

import (
	"fmt"
	"io"
	"runtime"
	"sort"
	"strings"
	"sync"

	"github.com/hugelgupf/p9/linux"
	"github.com/hugelgupf/p9/p9"
	"verif/rt/vrt"
	"verif/rt/vsched"
)

// Inode is a file system object.
type Inode struct {
	ID       uint64
	Mode     p9.FileMode
	UID      p9.UID
	GID      p9.GID
	Data     []byte
	Children map[string]*Inode
	Target   string
	NLink    int
	Xattrs   map[string][]byte
	RDev     uint64
	hdr      vsched.ObjHdr
}

func (i *Inode) obj() vsched.ObjID {
	id, fresh := i.hdr.Obj()
	if fresh {
		vsched.NameObj(id, fmt.Sprintf("inode%d", i.ID))
	}
	return id
}

// QID returns the inode's QID.
func (i *Inode) QID() p9.QID { return p9.QID{Type: i.Mode.QIDType(), Path: i.ID} }

// IsDir reports whether the inode is a directory.
func (i *Inode) IsDir() bool { return i.Mode.IsDir() }

// Call is one invocation of a File (or Attacher) method.
type Call struct {
	Seq    int
	Method string
	Handle int    // receiver handle id (-1 for Attach)
	Path   string // receiver's notified path at call time
	Ino    uint64 // receiver's object
	Args   []interface{}
	Names  []string // name arguments (components / entry names)
	Site   string   // p9 caller (file:line)
	Thread int
	Enter  vsched.Stamp
	Exit   vsched.Stamp
	Done   bool
	Err    error
	Panic  bool
	NewH   int // handle created by this call (-1 none)
	Result []interface{}
	Class  Class
	// paths this call operates on, for the overlap oracle
	OnPath string // path of the node the call's class applies to
	Victim string // for UnlinkAt: path of the entry being removed
	// FencedBy: the receiver had been detached (its path unlinked or
	// overwritten) by this earlier call when the call entered.
	FencedBy *Call
}

// Class is the concurrency class documented on p9.File.
type Class int

const (
	ClassNone Class = iota
	ClassRead
	ClassWrite
	ClassGlobal
)

func (c Class) String() string { return [...]string{"none", "read", "write", "global"}[c] }

// Action tells a call what to do instead of (or before) its normal behaviour.
type Action struct {
	Err      error
	Panic    interface{}
	Gate     *Gate
	Override *Override
}

// Override replaces result values of a call.
type Override struct {
	QID        *p9.QID
	QIDs       []p9.QID
	Attr       *p9.Attr
	Valid      *p9.AttrMask
	N          *int
	Data       []byte
	Str        *string
	Strs       []string
	Dirents    p9.Dirents
	FSStat     *p9.FSStat
	Status     *p9.LockStatus
	IoUnit     *uint32
	HasDirents bool
	// EOF: ReadAt returns its (non-empty) data TOGETHER with io.EOF, as
	// io.ReaderAt allows and os.File does at the end of a file.
	EOF bool
}

// Gate blocks a call inside the backend until opened.
type Gate struct {
	hdr    vsched.ObjHdr
	open   bool
	Waited int // number of calls that reached the gate
	mu     sync.Mutex
	cond   *sync.Cond
}

// Wait blocks until the gate is open.
func (g *Gate) Wait() {
	if vsched.Active() {
		id, _ := g.hdr.Obj()
		g.Waited++
		vsched.StepWhen(vsched.Op1("gate.wait", id, vsched.KMemRead), func() bool { return g.open })
		return
	}
	if vsched.Unwinding() {
		return
	}
	g.mu.Lock()
	if g.cond == nil {
		g.cond = sync.NewCond(&g.mu)
	}
	g.Waited++
	for !g.open {
		g.cond.Wait()
	}
	g.mu.Unlock()
}

// Open opens the gate.
func (g *Gate) Open() {
	if vsched.Active() {
		id, _ := g.hdr.Obj()
		vsched.Step(vsched.Op1("gate.open", id, vsched.KMemWrite))
		g.open = true
		return
	}
	g.mu.Lock()
	if g.cond == nil {
		g.cond = sync.NewCond(&g.mu)
	}
	g.open = true
	g.cond.Broadcast()
	g.mu.Unlock()
}

// IsOpen reports the gate state without a scheduling point.
func (g *Gate) IsOpen() bool { return g.open }

// Problem is something memfs itself noticed.
type Problem struct {
	Kind   string // "use-after-close", "double-close", "double-open", "incoherent-path", "bad-name", "walk-from-nondir"
	Call   int
	Detail string
}

// FS is one file system instance.
type FS struct {
	Root     *Inode
	nextIno  uint64
	Handles  []*Handle
	Calls    []*Call
	Problems []Problem

	// Hook, if set, is consulted at the start of every call.
	Hook func(c *Call) *Action

	// WalkGetAttrImpl makes WalkGetAttr a real implementation instead of ENOSYS.
	WalkGetAttrImpl bool
	// AllowNonEmptyRmdir lets UnlinkAt and RenameAt remove non-empty directories.
	AllowNonEmptyRmdir bool
	// ReadShort, if >0, caps the bytes returned per ReadAt.
	IoUnit uint32

	mu      sync.Mutex // free mode only
	pathHdr vsched.ObjHdr
}

// Handle is one p9.File handed to the server.
type Handle struct {
	fs             *FS
	ID             int
	Ino            *Inode
	Parent         *Handle
	Name           string
	Closed         int
	Opened         int
	Flags          p9.OpenFlags
	Created        int // seq of the creating call
	Uses           int
	UsedAfterClose int
	CloseStamp     vsched.Stamp
	LastUse        []vsched.Stamp
	// Detached: the entry at this handle's notified path (or an ancestor) was
	// removed by UnlinkAt or overwritten by RenameAt; it has no path to be
	// coherent with, even if its object lives on under another link.
	Detached   bool
	DetachedBy *Call    // the UnlinkAt / RenameAt that detached it
	snap       []string // path snapshot (see PathParts)
}

var _ p9.File = (*Handle)(nil)

// New creates a file system with an empty root directory.
func New() *FS {
	fs := &FS{}
	fs.Root = fs.newInode(p9.ModeDirectory | 0o755)
	fs.Root.NLink = 1
	return fs
}

func (fs *FS) newInode(mode p9.FileMode) *Inode {
	fs.nextIno++
	i := &Inode{ID: fs.nextIno, Mode: mode, Xattrs: map[string][]byte{}}
	if mode.IsDir() {
		i.Children = map[string]*Inode{}
	}
	return i
}

// --- tree construction helpers (not calls, no logging) ---------------------

// MkdirP creates directories along path (slash separated) and returns the last.
func (fs *FS) MkdirP(path string) *Inode {
	cur := fs.Root
	for _, n := range split(path) {
		c, ok := cur.Children[n]
		if !ok {
			c = fs.newInode(p9.ModeDirectory | 0o755)
			c.NLink = 1
			cur.Children[n] = c
		}
		cur = c
	}
	return cur
}

// AddFile creates a regular file with the given content.
func (fs *FS) AddFile(path string, data []byte) *Inode {
	return fs.AddNode(path, p9.ModeRegular|0o644, data, "")
}

// AddNode creates a node of an arbitrary type.
func (fs *FS) AddNode(path string, mode p9.FileMode, data []byte, target string) *Inode {
	parts := split(path)
	dir := fs.MkdirP(strings.Join(parts[:len(parts)-1], "/"))
	i := fs.newInode(mode)
	i.NLink = 1
	i.Data = append([]byte(nil), data...)
	i.Target = target
	dir.Children[parts[len(parts)-1]] = i
	return i
}

func split(p string) []string {
	var out []string
	for _, s := range strings.Split(p, "/") {
		if s != "" {
			out = append(out, s)
		}
	}
	return out
}

// Resolve returns the inode at path (components), or nil.
func (fs *FS) Resolve(parts []string) *Inode {
	cur := fs.Root
	for _, n := range parts {
		if cur == nil || cur.Children == nil {
			return nil
		}
		cur = cur.Children[n]
	}
	return cur
}

// PathOf returns one current path of the inode ("" if unlinked), by search.
func (fs *FS) PathOf(target *Inode) (string, bool) {
	var rec func(i *Inode, prefix string) (string, bool)
	rec = func(i *Inode, prefix string) (string, bool) {
		if i == target {
			return prefix, true
		}
		names := make([]string, 0, len(i.Children))
		for n := range i.Children {
			names = append(names, n)
		}
		sort.Strings(names)
		for _, n := range names {
			if p, ok := rec(i.Children[n], prefix+"/"+n); ok {
				return p, true
			}
		}
		return "", false
	}
	return rec(fs.Root, "")
}

// Dump renders the tree canonically (for state keys).
func (fs *FS) Dump() string {
	var sb strings.Builder
	var rec func(i *Inode, name string, depth int)
	rec = func(i *Inode, name string, depth int) {
		fmt.Fprintf(&sb, "%s%s#%d:%o", strings.Repeat(" ", depth), name, i.ID, uint32(i.Mode))
		if !i.IsDir() {
			fmt.Fprintf(&sb, ":%q:%q", i.Data, i.Target)
		}
		sb.WriteByte('\n')
		names := make([]string, 0, len(i.Children))
		for n := range i.Children {
			names = append(names, n)
		}
		sort.Strings(names)
		for _, n := range names {
			rec(i.Children[n], n, depth+1)
		}
	}
	rec(fs.Root, "/", 0)
	return sb.String()
}

// --- Attacher ---------------------------------------------------------------

// Attach implements p9.Attacher.
func (fs *FS) Attach() (p9.File, error) {
	c := fs.enter(nil, "Attach", ClassNone, nil)
	defer fs.exit(c)
	if a := fs.action(c); a != nil && a.Err != nil {
		c.Err = a.Err
		return nil, a.Err
	}
	h := fs.newHandle(fs.Root, nil, "", c)
	return h, nil
}

func (fs *FS) newHandle(ino *Inode, parent *Handle, name string, c *Call) *Handle {
	h := &Handle{fs: fs, ID: len(fs.Handles), Ino: ino, Parent: parent, Name: name, Created: c.Seq}
	h.PathParts() // take the path snapshot now
	fs.Handles = append(fs.Handles, h)
	c.NewH = h.ID
	return h
}

// --- call bookkeeping -------------------------------------------------------

func (fs *FS) lock() {
	if !vsched.Active() && !vsched.Unwinding() {
		fs.mu.Lock()
	}
}
func (fs *FS) unlock() {
	if !vsched.Active() && !vsched.Unwinding() {
		fs.mu.Unlock()
	}
}

func callerSite() string {
	var pcs [12]uintptr
	n := runtime.Callers(3, pcs[:])
	frames := runtime.CallersFrames(pcs[:n])
	for {
		f, more := frames.Next()
		if strings.Contains(f.Function, "hugelgupf/p9/p9.") {
			file := f.File
			if i := strings.LastIndex(file, "/"); i >= 0 {
				file = file[i+1:]
			}
			fn := f.Function[strings.LastIndex(f.Function, "/")+1:]
			return fmt.Sprintf("%s:%d(%s)", file, f.Line, fn)
		}
		if !more {
			break
		}
	}
	return "?"
}

// RecordSites controls whether call sites are captured (costly).
var RecordSites = true

func (fs *FS) enter(h *Handle, method string, class Class, names []string, args ...interface{}) *Call {
	fs.lock()
	c := &Call{Seq: len(fs.Calls), Method: method, Handle: -1, NewH: -1, Class: class, Thread: vsched.CurThread()}
	if RecordSites {
		c.Site = callerSite()
	}
	c.Args = args
	c.Names = append([]string(nil), names...)
	if h != nil {
		c.Handle = h.ID
		c.Ino = h.Ino.ID
		c.Path = h.PathString()
		c.OnPath = c.Path
		h.Uses++
		if h.Detached {
			c.FencedBy = h.DetachedBy
		}
		if h.Closed > 0 {
			h.UsedAfterClose++
			fs.problem("use-after-close", c, fmt.Sprintf("%s on handle %d (%s) after Close", method, h.ID, c.Path))
		}
	}
	fs.Calls = append(fs.Calls, c)
	c.Enter = vsched.MakeStamp()
	if h != nil {
		h.LastUse = append(h.LastUse, c.Enter)
	}
	fs.unlock()
	return c
}

func (fs *FS) exit(c *Call) {
	fs.lock()
	c.Exit = vsched.MakeStamp()
	c.Done = true
	if c.Handle >= 0 {
		h := fs.Handles[c.Handle]
		h.LastUse = append(h.LastUse, c.Exit)
	}
	fs.unlock()
}

func (fs *FS) problem(kind string, c *Call, detail string) {
	seq := -1
	if c != nil {
		seq = c.Seq
	}
	fs.Problems = append(fs.Problems, Problem{Kind: kind, Call: seq, Detail: detail})
}

// action consults the hook; it performs gate waits and panics itself and
// returns the action for error/override handling.
func (fs *FS) action(c *Call) *Action {
	if fs.Hook == nil {
		return nil
	}
	a := fs.Hook(c)
	if a == nil {
		return nil
	}
	if a.Gate != nil {
		a.Gate.Wait()
	}
	if a.Panic != nil {
		c.Panic = true
		panic(a.Panic)
	}
	return a
}

func (fs *FS) access(i *Inode, write bool, label string) {
	if vsched.Active() {
		k := vsched.KMemRead
		if write {
			k = vsched.KMemWrite
		}
		vsched.Step(vsched.Op1("memfs."+label, i.obj(), k))
	}
}

func (fs *FS) pathsAccess(write bool) {
	if vsched.Active() {
		id, fresh := fs.pathHdr.Obj()
		if fresh {
			vsched.NameObj(id, "memfs.paths")
		}
		k := vsched.KMemRead
		if write {
			k = vsched.KMemWrite
		}
		vsched.Step(vsched.Op1("memfs.paths", id, k))
	}
}

// --- handle helpers ------------------------------------------------------------

// PathParts returns the handle's notified path.
//
// Like localfs, a handle stores its path as a string snapshot taken when it
// was created (parent's path at that moment + name) and replaced only by
// Renamed (new parent's path at that moment + new name). A descendant of a
// renamed directory therefore keeps a stale path unless the server notifies
// it too.
func (h *Handle) PathParts() []string {
	if h.Parent == nil {
		return nil
	}
	if h.snap == nil {
		h.snap = append(append([]string{}, h.Parent.PathParts()...), h.Name)
	}
	return append([]string{}, h.snap...)
}

// PathString is "/a/b" ("/" for the root).
func (h *Handle) PathString() string {
	p := h.PathParts()
	if len(p) == 0 {
		return "/"
	}
	return "/" + strings.Join(p, "/")
}

// node returns the inode path-dependent methods act on: the handle's object.
// It also checks that the notified path still denotes that object (unless the
// object has been unlinked, in which case there is nothing to be coherent
// with).
func (h *Handle) node(c *Call) *Inode {
	fs := h.fs
	for p := h.Parent; p != nil; p = p.Parent {
		if p.Closed > 0 {
			fs.problem("use-after-close", c, fmt.Sprintf("%s on handle %d needs parent handle %d which is closed", c.Method, h.ID, p.ID))
			break
		}
	}
	if h.Ino.NLink > 0 && !h.Detached {
		if got := fs.Resolve(h.PathParts()); got != h.Ino {
			actual, _ := fs.PathOf(h.Ino)
			fs.problem("incoherent-path", c, fmt.Sprintf("%s: handle %d was told it is at %s but its object #%d is at %s", c.Method, h.ID, h.PathString(), h.Ino.ID, actual))
		}
	}
	return h.Ino
}

func checkName(fs *FS, c *Call, names ...string) {
	for _, n := range names {
		if n == "" || n == "." || n == ".." || strings.Contains(n, "/") {
			fs.problem("bad-name", c, fmt.Sprintf("%s received path component %q", c.Method, n))
		}
	}
}

// --- p9.File ----------------------------------------------------------------------

// Walk implements p9.File.Walk.
func (h *Handle) Walk(names []string) ([]p9.QID, p9.File, error) {
	fs := h.fs
	c := fs.enter(h, "Walk", ClassRead, names)
	defer fs.exit(c)
	a := fs.action(c)
	if a != nil && a.Err != nil {
		c.Err = a.Err
		return nil, nil, a.Err
	}
	qids, nh, err := h.walk(c, names)
	c.Err = err
	if err != nil {
		return nil, nil, err
	}
	if a != nil && a.Override != nil && a.Override.QIDs != nil {
		qids = a.Override.QIDs
	}
	return qids, nh, nil
}

func (h *Handle) walk(c *Call, names []string) ([]p9.QID, *Handle, error) {
	fs := h.fs
	checkName(fs, c, names...)
	fs.pathsAccess(false)
	cur := h.node(c)
	fs.access(cur, false, "walk")
	if len(names) == 0 {
		nh := fs.newHandle(h.Ino, h.Parent, h.Name, c)
		// a clone of a handle whose path has gone is at that same, gone path
		nh.Detached, nh.DetachedBy = h.Detached, h.DetachedBy
		return []p9.QID{h.Ino.QID()}, nh, nil
	}
	if !cur.IsDir() {
		fs.problem("walk-from-nondir", c, fmt.Sprintf("Walk(%q) invoked on non-directory handle %d (%s, mode %o)", names, h.ID, c.Path, uint32(cur.Mode)))
	}
	var qids []p9.QID
	parent := h
	for _, n := range names {
		if !cur.IsDir() {
			return nil, nil, linux.ENOTDIR
		}
		next, ok := cur.Children[n]
		if !ok {
			return nil, nil, linux.ENOENT
		}
		qids = append(qids, next.QID())
		// Intermediate handles for multi-component walks (clients only).
		nh := &Handle{fs: fs, ID: -1, Ino: next, Parent: parent, Name: n}
		nh.PathParts()
		parent = nh
		cur = next
	}
	last := parent
	// (a server never walks to a child from a handle it knows to be gone; if it
	// does, the child's path is below a path that no longer exists)
	last.Detached, last.DetachedBy = h.Detached, h.DetachedBy
	last.ID = len(fs.Handles)
	last.Created = c.Seq
	fs.Handles = append(fs.Handles, last)
	c.NewH = last.ID
	return qids, last, nil
}

// WalkGetAttr implements p9.File.WalkGetAttr.
func (h *Handle) WalkGetAttr(names []string) ([]p9.QID, p9.File, p9.AttrMask, p9.Attr, error) {
	fs := h.fs
	if !fs.WalkGetAttrImpl {
		// Behave like p9.DefaultWalkGetAttr, but visibly.
		c := fs.enter(h, "WalkGetAttr", ClassRead, names)
		defer fs.exit(c)
		checkName(fs, c, names...)
		if a := fs.action(c); a != nil && a.Err != nil {
			c.Err = a.Err
			return nil, nil, p9.AttrMask{}, p9.Attr{}, a.Err
		}
		c.Err = linux.ENOSYS
		return nil, nil, p9.AttrMask{}, p9.Attr{}, linux.ENOSYS
	}
	c := fs.enter(h, "WalkGetAttr", ClassRead, names)
	defer fs.exit(c)
	a := fs.action(c)
	if a != nil && a.Err != nil {
		c.Err = a.Err
		return nil, nil, p9.AttrMask{}, p9.Attr{}, a.Err
	}
	qids, nh, err := h.walk(c, names)
	c.Err = err
	if err != nil {
		return nil, nil, p9.AttrMask{}, p9.Attr{}, err
	}
	valid, attr := p9.AttrMaskAll, nh.Ino.attr()
	if a != nil && a.Override != nil {
		if a.Override.QIDs != nil {
			qids = a.Override.QIDs
		}
		if a.Override.Attr != nil {
			attr = *a.Override.Attr
		}
		if a.Override.Valid != nil {
			valid = *a.Override.Valid
		}
	}
	return qids, nh, valid, attr, nil
}

func (i *Inode) attr() p9.Attr {
	return p9.Attr{Mode: i.Mode, UID: i.UID, GID: i.GID, NLink: p9.NLink(i.NLink), RDev: p9.Dev(i.RDev),
		Size: uint64(len(i.Data)), BlockSize: 4096, Blocks: uint64((len(i.Data) + 511) / 512)}
}

// StatFS implements p9.File.StatFS.
func (h *Handle) StatFS() (p9.FSStat, error) {
	fs := h.fs
	c := fs.enter(h, "StatFS", ClassNone, nil)
	defer fs.exit(c)
	a := fs.action(c)
	if a != nil && a.Err != nil {
		c.Err = a.Err
		return p9.FSStat{}, a.Err
	}
	st := p9.FSStat{Type: 0x01021997, BlockSize: 4096, Blocks: 1000, BlocksFree: 500, BlocksAvailable: 400, Files: 100, FilesFree: 50, FSID: 7, NameLength: 255}
	if a != nil && a.Override != nil && a.Override.FSStat != nil {
		st = *a.Override.FSStat
	}
	return st, nil
}

// GetAttr implements p9.File.GetAttr.
func (h *Handle) GetAttr(req p9.AttrMask) (p9.QID, p9.AttrMask, p9.Attr, error) {
	fs := h.fs
	c := fs.enter(h, "GetAttr", ClassRead, nil, req)
	defer fs.exit(c)
	a := fs.action(c)
	if a != nil && a.Err != nil {
		c.Err = a.Err
		return p9.QID{}, p9.AttrMask{}, p9.Attr{}, a.Err
	}
	fs.pathsAccess(false)
	n := h.node(c)
	fs.access(n, false, "getattr")
	qid, valid, attr := n.QID(), req, n.attr()
	if a != nil && a.Override != nil {
		if a.Override.QID != nil {
			qid = *a.Override.QID
		}
		if a.Override.Attr != nil {
			attr = *a.Override.Attr
		}
		if a.Override.Valid != nil {
			valid = *a.Override.Valid
		}
	}
	return qid, valid, attr, nil
}

// SetAttr implements p9.File.SetAttr.
func (h *Handle) SetAttr(valid p9.SetAttrMask, attr p9.SetAttr) error {
	fs := h.fs
	c := fs.enter(h, "SetAttr", ClassWrite, nil, valid, attr)
	defer fs.exit(c)
	if a := fs.action(c); a != nil && a.Err != nil {
		c.Err = a.Err
		return a.Err
	}
	fs.pathsAccess(false)
	n := h.node(c)
	fs.access(n, true, "setattr")
	if valid.Permissions {
		n.Mode = n.Mode&^0o7777 | attr.Permissions&0o7777
	}
	if valid.UID {
		n.UID = attr.UID
	}
	if valid.GID {
		n.GID = attr.GID
	}
	if valid.Size && !n.IsDir() && attr.Size < 1<<31 {
		if int(attr.Size) <= len(n.Data) {
			n.Data = n.Data[:attr.Size]
		} else if attr.Size < 1<<20 {
			n.Data = append(n.Data, make([]byte, int(attr.Size)-len(n.Data))...)
		}
	}
	return nil
}

// Close implements p9.File.Close.
func (h *Handle) Close() error {
	fs := h.fs
	fs.lock()
	c := &Call{Seq: len(fs.Calls), Method: "Close", Handle: h.ID, NewH: -1, Class: ClassNone, Thread: vsched.CurThread(), Ino: h.Ino.ID, Path: h.PathString()}
	if RecordSites {
		c.Site = callerSite()
	}
	fs.Calls = append(fs.Calls, c)
	c.Enter = vsched.MakeStamp()
	h.Closed++
	if h.Closed > 1 {
		fs.problem("double-close", c, fmt.Sprintf("handle %d (%s) closed %d times", h.ID, c.Path, h.Closed))
	} else {
		h.CloseStamp = c.Enter
	}
	fs.unlock()
	defer fs.exit2(c)
	if a := fs.action(c); a != nil && a.Err != nil {
		c.Err = a.Err
		return a.Err
	}
	return nil
}

func (fs *FS) exit2(c *Call) {
	fs.lock()
	c.Exit = vsched.MakeStamp()
	c.Done = true
	fs.unlock()
}

// Open implements p9.File.Open.
func (h *Handle) Open(mode p9.OpenFlags) (p9.QID, uint32, error) {
	fs := h.fs
	c := fs.enter(h, "Open", ClassRead, nil, mode)
	defer fs.exit(c)
	h.Opened++
	if h.Opened > 1 {
		fs.problem("double-open", c, fmt.Sprintf("Open invoked %d times on handle %d (%s)", h.Opened, h.ID, c.Path))
	}
	a := fs.action(c)
	if a != nil && a.Err != nil {
		c.Err = a.Err
		return p9.QID{}, 0, a.Err
	}
	fs.pathsAccess(false)
	n := h.node(c)
	fs.access(n, false, "open")
	h.Flags = mode
	qid, iounit := n.QID(), fs.IoUnit
	if a != nil && a.Override != nil {
		if a.Override.QID != nil {
			qid = *a.Override.QID
		}
		if a.Override.IoUnit != nil {
			iounit = *a.Override.IoUnit
		}
	}
	return qid, iounit, nil
}

// ReadAt implements p9.File.ReadAt.
func (h *Handle) ReadAt(p []byte, offset int64) (int, error) {
	fs := h.fs
	c := fs.enter(h, "ReadAt", ClassRead, nil, len(p), offset)
	defer fs.exit(c)
	a := fs.action(c)
	if a != nil && a.Err != nil {
		c.Err = a.Err
		return 0, a.Err
	}
	n := h.Ino // I/O acts on the object like an fd
	fs.access(n, false, "read")
	vrt.ArrW(p, "buffer bytes", "memfs.ReadAt")
	if a != nil && a.Override != nil && a.Override.Data != nil {
		k := copy(p, a.Override.Data)
		c.Result = []interface{}{k}
		if a.Override.EOF && k > 0 {
			c.Err = io.EOF
			return k, io.EOF
		}
		return k, nil
	}
	if n.IsDir() {
		c.Err = linux.EISDIR
		return 0, linux.EISDIR
	}
	if offset < 0 || offset >= int64(len(n.Data)) {
		c.Err = io.EOF
		return 0, io.EOF
	}
	k := copy(p, n.Data[offset:])
	if a != nil && a.Override != nil && a.Override.N != nil && *a.Override.N < k {
		k = *a.Override.N
	}
	c.Result = []interface{}{k}
	if a != nil && a.Override != nil && a.Override.EOF && k > 0 && offset+int64(k) >= int64(len(n.Data)) {
		c.Err = io.EOF
		return k, io.EOF
	}
	return k, nil
}

// WriteAt implements p9.File.WriteAt.
func (h *Handle) WriteAt(p []byte, offset int64) (int, error) {
	fs := h.fs
	c := fs.enter(h, "WriteAt", ClassRead, nil, append([]byte(nil), p...), offset)
	defer fs.exit(c)
	a := fs.action(c)
	if a != nil && a.Err != nil {
		c.Err = a.Err
		return 0, a.Err
	}
	n := h.Ino
	fs.access(n, true, "write")
	vrt.ArrR(p, "buffer bytes", "memfs.WriteAt")
	if n.IsDir() {
		c.Err = linux.EISDIR
		return 0, linux.EISDIR
	}
	k := len(p)
	if a != nil && a.Override != nil && a.Override.N != nil && *a.Override.N < k {
		k = *a.Override.N
	}
	if offset < 0 {
		c.Err = linux.EINVAL
		return 0, linux.EINVAL
	}
	if offset > 1<<24 {
		// sparse far writes: keep only bookkeeping (content model lives in the caller)
		c.Result = []interface{}{k}
		return k, nil
	}
	if need := int(offset) + k; need > len(n.Data) {
		n.Data = append(n.Data, make([]byte, need-len(n.Data))...)
	}
	copy(n.Data[offset:], p[:k])
	c.Result = []interface{}{k}
	return k, nil
}

// SetXattr implements p9.File.SetXattr.
func (h *Handle) SetXattr(attr string, data []byte, flags p9.XattrFlags) error {
	fs := h.fs
	c := fs.enter(h, "SetXattr", ClassNone, nil, attr, append([]byte(nil), data...), flags)
	defer fs.exit(c)
	if a := fs.action(c); a != nil && a.Err != nil {
		c.Err = a.Err
		return a.Err
	}
	fs.access(h.Ino, true, "setxattr")
	_, exists := h.Ino.Xattrs[attr]
	if flags == p9.XattrCreate && exists {
		c.Err = linux.EEXIST
		return linux.EEXIST
	}
	if flags == p9.XattrReplace && !exists {
		c.Err = linux.ENODATA
		return linux.ENODATA
	}
	h.Ino.Xattrs[attr] = append([]byte(nil), data...)
	return nil
}

// GetXattr implements p9.File.GetXattr.
func (h *Handle) GetXattr(attr string) ([]byte, error) {
	fs := h.fs
	c := fs.enter(h, "GetXattr", ClassNone, nil, attr)
	defer fs.exit(c)
	a := fs.action(c)
	if a != nil && a.Err != nil {
		c.Err = a.Err
		return nil, a.Err
	}
	fs.access(h.Ino, false, "getxattr")
	if a != nil && a.Override != nil && a.Override.Data != nil {
		return a.Override.Data, nil
	}
	v, ok := h.Ino.Xattrs[attr]
	if !ok {
		c.Err = linux.ENODATA
		return nil, linux.ENODATA
	}
	return append([]byte(nil), v...), nil
}

// ListXattrs implements p9.File.ListXattrs.
func (h *Handle) ListXattrs() ([]string, error) {
	fs := h.fs
	c := fs.enter(h, "ListXattrs", ClassNone, nil)
	defer fs.exit(c)
	a := fs.action(c)
	if a != nil && a.Err != nil {
		c.Err = a.Err
		return nil, a.Err
	}
	fs.access(h.Ino, false, "listxattrs")
	if a != nil && a.Override != nil && a.Override.Strs != nil {
		return a.Override.Strs, nil
	}
	var names []string
	for n := range h.Ino.Xattrs {
		names = append(names, n)
	}
	sort.Strings(names)
	return names, nil
}

// RemoveXattr implements p9.File.RemoveXattr.
func (h *Handle) RemoveXattr(attr string) error {
	fs := h.fs
	c := fs.enter(h, "RemoveXattr", ClassNone, nil, attr)
	defer fs.exit(c)
	if a := fs.action(c); a != nil && a.Err != nil {
		c.Err = a.Err
		return a.Err
	}
	fs.access(h.Ino, true, "removexattr")
	if _, ok := h.Ino.Xattrs[attr]; !ok {
		c.Err = linux.ENODATA
		return linux.ENODATA
	}
	delete(h.Ino.Xattrs, attr)
	return nil
}

// FSync implements p9.File.FSync.
func (h *Handle) FSync() error {
	fs := h.fs
	c := fs.enter(h, "FSync", ClassRead, nil)
	defer fs.exit(c)
	if a := fs.action(c); a != nil && a.Err != nil {
		c.Err = a.Err
		return a.Err
	}
	fs.access(h.Ino, false, "fsync")
	return nil
}

// Lock implements p9.File.Lock.
func (h *Handle) Lock(pid int, locktype p9.LockType, flags p9.LockFlags, start, length uint64, client string) (p9.LockStatus, error) {
	fs := h.fs
	c := fs.enter(h, "Lock", ClassNone, nil, pid, locktype, flags, start, length, client)
	defer fs.exit(c)
	a := fs.action(c)
	if a != nil && a.Err != nil {
		c.Err = a.Err
		return p9.LockStatusError, a.Err
	}
	st := p9.LockStatusOK
	if a != nil && a.Override != nil && a.Override.Status != nil {
		st = *a.Override.Status
	}
	return st, nil
}

func (h *Handle) dirForWrite(c *Call) (*Inode, error) {
	fs := h.fs
	fs.pathsAccess(false)
	n := h.node(c)
	fs.access(n, true, c.Method)
	if !n.IsDir() {
		return nil, linux.ENOTDIR
	}
	return n, nil
}

// Create implements p9.File.Create.
func (h *Handle) Create(name string, flags p9.OpenFlags, permissions p9.FileMode, uid p9.UID, gid p9.GID) (p9.File, p9.QID, uint32, error) {
	fs := h.fs
	c := fs.enter(h, "Create", ClassWrite, []string{name}, name, flags, permissions, uid, gid)
	defer fs.exit(c)
	checkName(fs, c, name)
	a := fs.action(c)
	if a != nil && a.Err != nil {
		c.Err = a.Err
		return nil, p9.QID{}, 0, a.Err
	}
	dir, err := h.dirForWrite(c)
	if err == nil {
		if _, ok := dir.Children[name]; ok {
			err = linux.EEXIST
		}
	}
	if err != nil {
		c.Err = err
		return nil, p9.QID{}, 0, err
	}
	n := fs.newInode(p9.ModeRegular | permissions&0o7777)
	n.NLink, n.UID, n.GID = 1, uid, gid
	dir.Children[name] = n
	nh := fs.newHandle(n, h, name, c)
	nh.Opened = 1
	nh.Flags = flags
	qid, iounit := n.QID(), fs.IoUnit
	if a != nil && a.Override != nil {
		if a.Override.QID != nil {
			qid = *a.Override.QID
		}
		if a.Override.IoUnit != nil {
			iounit = *a.Override.IoUnit
		}
	}
	return nh, qid, iounit, nil
}

func (h *Handle) mknode(c *Call, a *Action, name string, mode p9.FileMode, uid p9.UID, gid p9.GID, target string, rdev uint64) (p9.QID, error) {
	fs := h.fs
	dir, err := h.dirForWrite(c)
	if err == nil {
		if _, ok := dir.Children[name]; ok {
			err = linux.EEXIST
		}
	}
	if err != nil {
		c.Err = err
		return p9.QID{}, err
	}
	n := fs.newInode(mode)
	n.NLink, n.UID, n.GID, n.Target, n.RDev = 1, uid, gid, target, rdev
	dir.Children[name] = n
	qid := n.QID()
	if a != nil && a.Override != nil && a.Override.QID != nil {
		qid = *a.Override.QID
	}
	return qid, nil
}

// Mkdir implements p9.File.Mkdir.
func (h *Handle) Mkdir(name string, permissions p9.FileMode, uid p9.UID, gid p9.GID) (p9.QID, error) {
	fs := h.fs
	c := fs.enter(h, "Mkdir", ClassWrite, []string{name}, name, permissions, uid, gid)
	defer fs.exit(c)
	checkName(fs, c, name)
	a := fs.action(c)
	if a != nil && a.Err != nil {
		c.Err = a.Err
		return p9.QID{}, a.Err
	}
	return h.mknode(c, a, name, p9.ModeDirectory|permissions&0o7777, uid, gid, "", 0)
}

// Symlink implements p9.File.Symlink.
func (h *Handle) Symlink(oldName string, newName string, uid p9.UID, gid p9.GID) (p9.QID, error) {
	fs := h.fs
	c := fs.enter(h, "Symlink", ClassWrite, []string{newName}, oldName, newName, uid, gid)
	defer fs.exit(c)
	checkName(fs, c, newName)
	a := fs.action(c)
	if a != nil && a.Err != nil {
		c.Err = a.Err
		return p9.QID{}, a.Err
	}
	return h.mknode(c, a, newName, p9.ModeSymlink|0o777, uid, gid, oldName, 0)
}

// Link implements p9.File.Link.
func (h *Handle) Link(target p9.File, newName string) error {
	fs := h.fs
	th, _ := target.(*Handle)
	tid := -1
	if th != nil {
		tid = th.ID
	}
	c := fs.enter(h, "Link", ClassWrite, []string{newName}, tid, newName)
	defer fs.exit(c)
	checkName(fs, c, newName)
	if a := fs.action(c); a != nil && a.Err != nil {
		c.Err = a.Err
		return a.Err
	}
	if th == nil {
		c.Err = linux.EINVAL
		return linux.EINVAL
	}
	if th.Closed > 0 {
		fs.problem("use-after-close", c, fmt.Sprintf("Link target handle %d is closed", th.ID))
	}
	dir, err := h.dirForWrite(c)
	if err == nil {
		if _, ok := dir.Children[newName]; ok {
			err = linux.EEXIST
		} else if th.Ino.IsDir() {
			err = linux.EPERM
		}
	}
	if err != nil {
		c.Err = err
		return err
	}
	dir.Children[newName] = th.Ino
	th.Ino.NLink++
	return nil
}

// Mknod implements p9.File.Mknod.
func (h *Handle) Mknod(name string, mode p9.FileMode, major uint32, minor uint32, uid p9.UID, gid p9.GID) (p9.QID, error) {
	fs := h.fs
	c := fs.enter(h, "Mknod", ClassWrite, []string{name}, name, mode, major, minor, uid, gid)
	defer fs.exit(c)
	checkName(fs, c, name)
	a := fs.action(c)
	if a != nil && a.Err != nil {
		c.Err = a.Err
		return p9.QID{}, a.Err
	}
	m := mode
	if m.FileType() == 0 {
		m |= p9.ModeRegular
	}
	return h.mknode(c, a, name, m, uid, gid, "", uint64(major)<<32|uint64(minor))
}

// Rename implements p9.File.Rename (never called on the server).
func (h *Handle) Rename(newDir p9.File, newName string) error {
	fs := h.fs
	c := fs.enter(h, "Rename", ClassNone, []string{newName}, newName)
	defer fs.exit(c)
	fs.problem("rename-called", c, "File.Rename invoked on a server-side File")
	return linux.ENOSYS
}

// detachHandles marks every open handle at or below path as detached.
func (fs *FS) detachHandles(path string, by *Call) {
	for _, h := range fs.Handles {
		if h.Closed > 0 || h.Detached {
			continue
		}
		p := h.PathString()
		if p == path || strings.HasPrefix(p, path+"/") {
			h.Detached = true
			h.DetachedBy = by
		}
	}
}

func (fs *FS) detach(n *Inode) {
	n.NLink--
	if n.NLink <= 0 && n.IsDir() {
		for _, ch := range n.Children {
			fs.detach(ch)
		}
	}
}

// RenameAt implements p9.File.RenameAt.
func (h *Handle) RenameAt(oldName string, newDir p9.File, newName string) error {
	fs := h.fs
	nd, _ := newDir.(*Handle)
	ndid := -1
	if nd != nil {
		ndid = nd.ID
	}
	c := fs.enter(h, "RenameAt", ClassGlobal, []string{oldName, newName}, oldName, ndid, newName)
	defer fs.exit(c)
	checkName(fs, c, oldName, newName)
	if a := fs.action(c); a != nil && a.Err != nil {
		c.Err = a.Err
		return a.Err
	}
	if nd == nil {
		c.Err = linux.EINVAL
		return linux.EINVAL
	}
	if nd.Closed > 0 {
		fs.problem("use-after-close", c, fmt.Sprintf("RenameAt target directory handle %d is closed", nd.ID))
	}
	src, err := h.dirForWrite(c)
	if err != nil {
		c.Err = err
		return err
	}
	dst := nd.node(c)
	fs.access(dst, true, "renameat-target")
	if !dst.IsDir() {
		c.Err = linux.ENOTDIR
		return linux.ENOTDIR
	}
	n, ok := src.Children[oldName]
	if !ok {
		c.Err = linux.ENOENT
		return linux.ENOENT
	}
	if old, ok := dst.Children[newName]; ok {
		if old == n {
			return nil
		}
		if old.IsDir() && !n.IsDir() {
			c.Err = linux.EISDIR
			return linux.EISDIR
		}
		if !old.IsDir() && n.IsDir() {
			c.Err = linux.ENOTDIR
			return linux.ENOTDIR
		}
		if old.IsDir() && len(old.Children) > 0 && !fs.AllowNonEmptyRmdir {
			c.Err = linux.ENOTEMPTY
			return linux.ENOTEMPTY
		}
		// the target must not be an ancestor of the source
		for p := fs.parentOf(n); p != nil; p = fs.parentOf(p) {
			if p == old {
				c.Err = linux.ENOTEMPTY
				return linux.ENOTEMPTY
			}
		}
		fs.detach(old)
		fs.detachHandles(strings.TrimSuffix(nd.PathString(), "/")+"/"+newName, c)
	}
	// moving a directory below itself
	if n.IsDir() {
		for p := dst; p != nil; {
			if p == n {
				c.Err = linux.EINVAL
				return linux.EINVAL
			}
			pp := fs.parentOf(p)
			p = pp
		}
	}
	delete(src.Children, oldName)
	dst.Children[newName] = n
	return nil
}

func (fs *FS) parentOf(target *Inode) *Inode {
	var rec func(i *Inode) *Inode
	rec = func(i *Inode) *Inode {
		for _, ch := range i.Children {
			if ch == target {
				return i
			}
			if ch.IsDir() {
				if r := rec(ch); r != nil {
					return r
				}
			}
		}
		return nil
	}
	if target == fs.Root {
		return nil
	}
	return rec(fs.Root)
}

// UnlinkAt implements p9.File.UnlinkAt.
func (h *Handle) UnlinkAt(name string, flags uint32) error {
	fs := h.fs
	c := fs.enter(h, "UnlinkAt", ClassWrite, []string{name}, name, flags)
	defer fs.exit(c)
	c.Victim = strings.TrimSuffix(c.Path, "/") + "/" + name
	checkName(fs, c, name)
	if a := fs.action(c); a != nil && a.Err != nil {
		c.Err = a.Err
		return a.Err
	}
	dir, err := h.dirForWrite(c)
	if err != nil {
		c.Err = err
		return err
	}
	n, ok := dir.Children[name]
	if !ok {
		c.Err = linux.ENOENT
		return linux.ENOENT
	}
	fs.access(n, true, "unlink-victim")
	if n.IsDir() && len(n.Children) > 0 && !fs.AllowNonEmptyRmdir {
		c.Err = linux.ENOTEMPTY
		return linux.ENOTEMPTY
	}
	delete(dir.Children, name)
	fs.detach(n)
	fs.detachHandles(c.Victim, c)
	return nil
}

// Readdir implements p9.File.Readdir.
func (h *Handle) Readdir(offset uint64, count uint32) (p9.Dirents, error) {
	fs := h.fs
	c := fs.enter(h, "Readdir", ClassRead, nil, offset, count)
	defer fs.exit(c)
	a := fs.action(c)
	if a != nil && a.Err != nil {
		c.Err = a.Err
		return nil, a.Err
	}
	n := h.Ino
	fs.access(n, false, "readdir")
	if a != nil && a.Override != nil && a.Override.HasDirents {
		return a.Override.Dirents, nil
	}
	if !n.IsDir() {
		c.Err = linux.ENOTDIR
		return nil, linux.ENOTDIR
	}
	names := make([]string, 0, len(n.Children))
	for nm := range n.Children {
		names = append(names, nm)
	}
	sort.Strings(names)
	var out p9.Dirents
	if offset > uint64(len(names)) {
		offset = uint64(len(names)) // absurd offsets (2^63 ...) list nothing
	}
	for i := int(offset); i < len(names); i++ {
		ch := n.Children[names[i]]
		out = append(out, p9.Dirent{QID: ch.QID(), Offset: uint64(i + 1), Type: ch.QID().Type, Name: names[i]})
	}
	return out, nil
}

// Readlink implements p9.File.Readlink.
func (h *Handle) Readlink() (string, error) {
	fs := h.fs
	c := fs.enter(h, "Readlink", ClassRead, nil)
	defer fs.exit(c)
	a := fs.action(c)
	if a != nil && a.Err != nil {
		c.Err = a.Err
		return "", a.Err
	}
	fs.pathsAccess(false)
	n := h.node(c)
	fs.access(n, false, "readlink")
	if a != nil && a.Override != nil && a.Override.Str != nil {
		return *a.Override.Str, nil
	}
	if !n.Mode.IsSymlink() {
		c.Err = linux.EINVAL
		return "", linux.EINVAL
	}
	return n.Target, nil
}

// Renamed implements p9.File.Renamed.
func (h *Handle) Renamed(newDir p9.File, newName string) {
	fs := h.fs
	nd, _ := newDir.(*Handle)
	ndid := -1
	if nd != nil {
		ndid = nd.ID
	}
	c := fs.enter(h, "Renamed", ClassGlobal, []string{newName}, ndid, newName)
	defer fs.exit(c)
	checkName(fs, c, newName)
	if a := fs.action(c); a != nil && a.Err != nil {
		c.Err = a.Err // Renamed cannot fail; recorded only
	}
	fs.pathsAccess(true)
	if nd != nil {
		if nd.Closed > 0 {
			fs.problem("use-after-close", c, fmt.Sprintf("Renamed: new parent handle %d is closed", nd.ID))
		}
		h.Parent = nd
	}
	h.Name = newName
	h.snap = nil
	h.PathParts() // new snapshot from the new parent's current path
}

// LiveHandles returns the ids of handles not yet closed.
func (fs *FS) LiveHandles() []int {
	var out []int
	for _, h := range fs.Handles {
		if h.Closed == 0 {
			out = append(out, h.ID)
		}
	}
	return out
}
