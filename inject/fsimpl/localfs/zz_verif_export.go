//go:build !windows

package localfs

// Added by the verification overlay only.

import (
	"os"
	"syscall"
	"time"
)

type verifFI struct{ st syscall.Stat_t }

func (f *verifFI) Name() string       { return "verif" }
func (f *verifFI) Size() int64        { return 0 }
func (f *verifFI) Mode() os.FileMode  { return 0 }
func (f *verifFI) ModTime() time.Time { return time.Time{} }
func (f *verifFI) IsDir() bool        { return false }
func (f *verifFI) Sys() interface{}   { return &f.st }

// VerifLocalToQid evaluates localfs's (dev, ino) -> qid.path mapping on
// arbitrary numbers.
func VerifLocalToQid(dev, ino uint64) (uint64, error) {
	fi := &verifFI{}
	fi.st.Dev = dev
	fi.st.Ino = ino
	return localToQid("", fi)
}

// VerifResetQids resets the fallback table (per explored execution).
func VerifResetQids() {
	qids.Range(func(k, v interface{}) bool { qids.Delete(k); return true })
	nextQid.Store(uint64(1) << 63)
}

// VerifSetInodeLikelyBits changes how many inode bits count as "likely" (0:
// every real inode goes through the fallback table) and returns the undo.
func VerifSetInodeLikelyBits(n int) (restore func()) {
	old := inodeLikelyBits
	inodeLikelyBits = n
	return func() { inodeLikelyBits = old }
}
