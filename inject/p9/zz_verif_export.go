package p9

// This file is added to package p9 by the verification overlay only; it is
// never part of /repo. It exports the few internals the harness needs.

import (
	"fmt"
	"io"
	"sort"
	"sync"

	"github.com/u-root/uio/ulog"
)

// VerifResetGlobals drains the process-wide message caches so that every
// explored execution starts from the same global state.
func VerifResetGlobals() {
	for i := range msgDotLRegistry.factories {
		c := msgDotLRegistry.factories[i].cache
		if c == nil {
			continue
		}
		for len(c) > 0 {
			<-c
		}
	}
}

// VerifLargestFixedSize is the registry's largest fixed message size.
func VerifLargestFixedSize() uint32 { return msgDotLRegistry.largestFixedSize }

// VerifPool exposes the tag/fid allocator.
type VerifPool struct{ p pool }

// VerifNewPool creates an allocator handing out [start, limit).
func VerifNewPool(start, limit uint64) *VerifPool {
	return &VerifPool{p: pool{start: start, limit: limit}}
}

// Get allocates.
func (v *VerifPool) Get() (uint64, bool) { return v.p.Get() }

// Put releases.
func (v *VerifPool) Put(x uint64) { v.p.Put(x) }

// VerifCheckPathTree is a read-only consistency check of the server's path
// tree: childRefs and childRefNames agree, and every registered reference is
// alive. It must be called while the server is quiescent.
func (s *Server) VerifCheckPathTree() []string {
	var out []string
	var rec func(p *pathNode, path string)
	rec = func(p *pathNode, path string) {
		n := 0
		for name, m := range p.childRefs {
			for ref := range m {
				n++
				if got, ok := p.childRefNames[ref]; !ok || got != name {
					out = append(out, fmt.Sprintf("%s: ref registered under %q but childRefNames says %q (present=%v)", path, name, got, ok))
				}
				if ref.refs <= 0 {
					out = append(out, fmt.Sprintf("%s/%s: dead reference (refs=%d) still registered", path, name, ref.refs))
				}
			}
		}
		if n != len(p.childRefNames) {
			out = append(out, fmt.Sprintf("%s: %d refs in childRefs but %d in childRefNames", path, n, len(p.childRefNames)))
		}
		names := make([]string, 0, len(p.childNodes))
		for name := range p.childNodes {
			names = append(names, name)
		}
		sort.Strings(names)
		for _, name := range names {
			rec(p.childNodes[name], path+"/"+name)
		}
	}
	rec(s.pathTree, "")
	sort.Strings(out)
	return out
}

// VerifTreeShape renders the path tree (names, number of references per
// name, deleted flags) canonically, for state keys.
func (s *Server) VerifTreeShape() string {
	var out string
	var rec func(p *pathNode, path string)
	rec = func(p *pathNode, path string) {
		names := map[string]bool{}
		for n := range p.childNodes {
			names[n] = true
		}
		for n := range p.childRefs {
			names[n] = true
		}
		var ns []string
		for n := range names {
			ns = append(ns, n)
		}
		sort.Strings(ns)
		for _, n := range ns {
			del := uint32(0)
			if pn, ok := p.childNodes[n]; ok {
				del = pn.deleted
			}
			out += fmt.Sprintf("%s/%s:refs=%d,node=%v,del=%d;", path, n, len(p.childRefs[n]), p.childNodes[n] != nil, del)
			if pn, ok := p.childNodes[n]; ok {
				rec(pn, path+"/"+n)
			}
		}
	}
	rec(s.pathTree, "")
	return out
}

// verifConns: the connection states of every Handle call, per server, in the
// order the connections were accepted (registered by a splice that verifgen
// inserts into Server.Handle).
var (
	verifConnsMu sync.Mutex
	verifConns   = map[*Server][]*connState{}
)

// VerifTrackConns switches the registration on (off by default: the table
// keeps every connection state alive until VerifForget).
var VerifTrackConns = false

func verifRegisterConn(s *Server, cs *connState) {
	if !VerifTrackConns {
		return
	}
	verifConnsMu.Lock()
	verifConns[s] = append(verifConns[s], cs)
	verifConnsMu.Unlock()
}

// VerifForget drops the bookkeeping for s (end of a history).
func (s *Server) VerifForget() {
	verifConnsMu.Lock()
	delete(verifConns, s)
	verifConnsMu.Unlock()
}

// VerifFidTables renders, canonically, the server-side state of every fid of
// every connection that the wire does not show: open state and raw open
// flags, mode, deleted mark, and the pending xattr operation with the number
// of bytes accumulated. Must be called while the server is quiescent.
func (s *Server) VerifFidTables() string {
	verifConnsMu.Lock()
	conns := append([]*connState{}, verifConns[s]...)
	verifConnsMu.Unlock()
	out := ""
	for i, cs := range conns {
		var fids []int
		for f := range cs.fids {
			fids = append(fids, int(f))
		}
		sort.Ints(fids)
		out += fmt.Sprintf("conn%d:", i)
		for _, f := range fids {
			r := cs.fids[fid(f)]
			out += fmt.Sprintf("[%d o=%v fl=%#x m=%#o del=%v x=%d:%q:%d:%d:%d]", f, r.opened, uint32(r.openFlags), uint32(r.mode), r.isDeleted(), r.pendingXattr.op, r.pendingXattr.name, r.pendingXattr.size, uint32(r.pendingXattr.flags), len(r.pendingXattr.buf))
		}
		out += ";"
	}
	return out
}

// VerifMsg is an opaque message handle for the in-process fast path.
type VerifMsg struct{ m message }

// VerifSendBytes encodes the message created by the registry for type t after
// decoding body into it, i.e. decode-then-encode through p9's own codec, and
// returns the frame send() produces. It reports ok=false if p9 rejects the body.
func VerifRecvFrame(r io.Reader, msize uint32) (tag uint16, typ uint8, str string, err error) {
	t, m, err := recv(ulog.Null, r, msize, msgDotLRegistry.get)
	if err != nil {
		return uint16(t), 0, "", err
	}
	return uint16(t), uint8(m.typ()), m.String(), nil
}

// VerifRoundTrip decodes one frame from r with p9's receiver and re-sends the
// decoded message with p9's sender to w.
func VerifRoundTrip(r io.Reader, w io.Writer, msize uint32) error {
	t, m, err := recv(ulog.Null, r, msize, msgDotLRegistry.get)
	if err != nil {
		return err
	}
	return send(ulog.Null, w, t, m)
}
